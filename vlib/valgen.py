"""Value generators per storage type (DESIGN §2.5) and an exact Python evaluation of the storage
types' own operations for the exact classes (used only to CHOOSE operations that the raw type
itself can perform without overflow / division by zero; never as an oracle)."""
from fractions import Fraction

from . import floatcases as FC
from .stypes import STYPES


def float_values(rng, ty, n_random, n_binade=0):
    vals = list(FC.special_values(ty).items())
    for k in range(n_random):
        vals.append((f"rnd{k}", FC.random_value(rng, ty)))
    for k, b in enumerate(FC.binade_values(rng, ty, n_binade) if n_binade else []):
        vals.append((f"binade{k}", b))
    return vals


def float_text(ty, bits):
    return FC.hexbits(bits, ty)


def int_value(rng, ty, small=False):
    st = STYPES[ty]
    lo, hi = st["lo"], st["hi"]
    k = rng.below(10)
    if small or k < 5:
        v = rng.below(2001) - 1000
    elif k < 7:
        e = rng.below(200 if hi is None else hi.bit_length())
        v = (1 << e) + rng.below(3) - 1
        if rng.below(2):
            v = -v
    elif k == 7:
        v = hi if hi is not None else (1 << 190) + rng.below(1 << 64)
    elif k == 8:
        v = lo if lo is not None else -((1 << 190) + rng.below(1 << 64))
    else:
        v = rng.below(1 << 30) - (1 << 29)
    if lo is not None and v < lo:
        v = lo if rng.below(2) else -v if -v <= (hi if hi is not None else -v) else lo
    if hi is not None and v > hi:
        v = hi
    if lo is not None and v < lo:
        v = lo
    return v


def rat_value(rng, ty, small=True):
    big = STYPES[ty]["lo"] is None
    if big and rng.below(4) == 0:
        n = rng.below(1 << 80) - (1 << 79)
        d = 1 + rng.below(1 << 70)
    else:
        n = rng.below(401) - 200
        d = 1 + rng.below(30)
    return Fraction(n, d)


def fits(ty, v):
    st = STYPES[ty]
    if st["cls"] == "z":
        return (st["lo"] is None or v >= st["lo"]) and (st["hi"] is None or v <= st["hi"])
    if st["cls"] == "q":
        if st["lo"] is None:
            return True
        # conservative: num-rational computes lcm/cross products in the same width
        return abs(v.numerator) < (1 << 24) and v.denominator < (1 << 24)
    return True


def tquot(a, b):
    q = abs(a) // abs(b)
    return q if (a >= 0) == (b >= 0) else -q


def exact_bin(ty, op, a, b):
    """Exact result of the raw operation for the exact classes, or None if the raw type cannot
    perform it (overflow, division by zero)."""
    c = STYPES[ty]["cls"]
    if op in ("div", "rem") and b == 0:
        return None
    if c == "z":
        if op == "add":
            r = a + b
        elif op == "sub":
            r = a - b
        elif op == "mul":
            r = a * b
        elif op == "div":
            r = tquot(a, b)
        elif op == "rem":
            # MIN % -1: the quotient overflows, and Rust panics although the remainder (0) fits
            if not fits(ty, tquot(a, b)):
                return None
            r = a - tquot(a, b) * b
        elif op == "max":
            r = max(a, b)
        elif op == "min":
            r = min(a, b)
        else:
            raise KeyError(op)
        # i32::MIN / -1 overflows
        return r if fits(ty, r) else None
    if c == "q":
        if op == "add":
            r = a + b
        elif op == "sub":
            r = a - b
        elif op == "mul":
            r = a * b
        elif op == "div":
            r = a / b
        elif op == "rem":
            q = a / b
            t = Fraction(tquot(q.numerator, q.denominator))
            r = a - t * b
        elif op == "max":
            r = max(a, b)
        elif op == "min":
            r = min(a, b)
        else:
            raise KeyError(op)
        return r if fits(ty, r) else None
    raise KeyError(ty)


def exact_un(ty, op, a):
    c = STYPES[ty]["cls"]
    if op == "neg":
        r = -a
    elif op == "abs":
        r = abs(a)
    elif op == "signum":
        r = (a > 0) - (a < 0)
        r = r if c == "z" else Fraction(r)
    else:
        raise KeyError(op)
    return r if fits(ty, r) else None


def val_text(ty, v):
    c = STYPES[ty]["cls"]
    if c in ("f64", "f32"):
        return FC.hexbits(v, c)
    if c == "z":
        return str(v)
    if c == "q":
        return f"{v.numerator}/{v.denominator}"
    raise KeyError(ty)
