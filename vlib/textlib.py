"""Text helpers for the formatting / parsing checks: hex transport, code-point sexps."""


def hexs(s):
    return s.encode("utf-8").hex() if s else "-"


def unhex(h):
    return "" if h == "-" else bytes.fromhex(h).decode("utf-8", "replace")


def cps(s):
    return "(" + " ".join(str(ord(c)) for c in s) + ")"


def from_cps(out):
    return "".join(chr(int(x)) for x in out.split())
