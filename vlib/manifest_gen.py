"""Regenerates MANIFEST.json from the table below (run: python3 -m vlib.manifest_gen)."""
import json
import os

from . import common as C

TB = ("trusted: Coq 8.16.1 kernel incl. vm_compute; Flocq 4.1.0; stdlib axioms named in the evidence (classical reals for float theorems, none "
      "for exact/table theorems); translator validated against the compiled crate; ExtrOcamlBasic extraction (vm_compute cross-check); "
      "Rust/OCaml/Python harness glue; ")

CLAIMED = {
    "C03": dict(
        text="Coq theorems (generic precision, any base-unit vector, any dimension vector, every value incl. -0.0/inf/NaN) about the one Gallina "
             "transcription of to_base/from_base; bit-exact correspondence of that transcription (extracted) with Quantity::new/get of the "
             "compiled crate on ~10^5 cases per run; ulp spec checker on every implementation answer; the zeros of the Celsius and Fahrenheit scales are checked against the property's own numbers; units added with unit! are in the stream",
        note=TB + "modelled: rustc literal rounding, compiler-builtins powi loop",
        technique="Coq proof + extracted-model bit-exact correspondence"),
    "C07": dict(
        text="Coq theorems, parametric in the storage operation and proved by induction over histories of any length: with shared base units "
             "(any base-unit set) every two-base operator and every history of operators yields exactly the storage type's result, for the "
             "float, rational and integer storage classes; tie: histories executed on quantity and bare registers of 11 storage types in the "
             "compiled crate and on the extracted model, compared step by step; a third of the cases rerun in a build without autoconvert",
        note=TB + "the storage types' own operations are parameters of the theorems (Flocq / Z / Q instances validated by the correspondence)",
        technique="Coq proof (induction over histories) + history correspondence"),
}

CLAIMED["C06"] = dict(
    text="Coq theorems at exact rational storage for any number of base quantities, exponents, non-zero base-unit coefficients and values: "
         "re-basing preserves the physical magnitude, and + - * == < <= and mul_add between operands in different base-unit sets equal the "
         "operation on the physical magnitudes, expressed in the left operand's base units; for floats, no rounding where both sides share a "
         "base unit; tie: bit-exact (f32/f64) and exact (BigRational/BigInt) correspondence of the extracted operators with the compiled crate "
         "over all ordered pairs of four base-unit sets, plus an exact-rational ulp checker on every implementation answer",
    note=TB + "hypot is libm's (checked to 1e-13 / 1e-5 relative only); the float error bound of re-basing is checked per case by exact "
         "rational arithmetic, its general Coq proof is listed in DESIGN as future work",
    technique="Coq proof (exact arithmetic) + extracted-model correspondence + exact ulp oracle")
CLAIMED["C10"] = dict(
    text="Coq theorems: with shared base units (any base-unit set) each comparison operator and partial_cmp on quantities is the storage "
         "type's; the six operators and partial_cmp are read off one three-way comparison (mutual coherence, mirror under swap, reflexivity "
         "for non-NaN, NaN unordered, order = order of the real values); mixed-base exact storage decides the physical order exactly; tie: "
         "full observation rows (==,!=,<,<=,>,>=,partial_cmp,cmp,max,min,clamp,hash) from the compiled crate for 8 storage types, with and "
         "without autoconvert, and mixed-base rows with equal/adjacent/separated magnitudes, against the extracted model and the spec",
    note=TB + "hash values compared only for equality within one process; mixed-base float ordering required only beyond the rounding bound",
    technique="Coq proof + observation-row correspondence")

CLAIMED["C05"] = dict(
    text="Exhaustive kernel-evaluated theorems over the unit tables REGENERATED from /repo on every run: every unit whose identifier has a "
         "composition reading (2 242 of 2 537; certificates proposed by the translator, decided in Coq: renders to exactly the identifier, "
         "dimension equal, coefficient equal to 1e-15 relative / 2e-6 for eleven NIST-rounded customary units) is coherent; base units and a "
         "coherent unit of every quantity are exactly 1 without offset; ~60 exact anchors, the two offsets, 12 seven-digit anchors, the prefix "
         "table; tie: registry (names, labels, order), dimension/kind of every quantity and coefficient()/constant() bits (f32,f64) of every "
         "unit compared with the compiled crate",
    note=TB + "the ~295 primitive identifiers without a reading are covered only through anchors and dependants (as the property says); known finding F7 excluded by name",
    technique="Coq proof by exhaustive evaluation over regenerated tables (translator + certificate checking)")

CLAIMED["C14"] = dict(
    text="Coq theorems about the Gallina transcription of src/si/time.rs at float storage of any precision <= 60 bits: the conversion never "
         "reaches Duration::new's panic (carry cannot overflow: integer argument on the float representation), strictly negative stored "
         "values report NegativeDuration in every base unit, NaN reports Overflow, Ok results are well-formed; to_u64/to_u32 accept exactly "
         "-1 < x < 2^bits; accuracy theorems for both directions (1 ns + ulp-sized terms) under computable premises; at primitive-integer "
         "storage (Model/DurationW.v over the width-checked Ratio<iN>): negative => NegativeDuration, an Ok result is the exact seconds truncated "
         "with zero nanoseconds, and the known finding as a theorem (i32 with the hour as base unit panics for every non-negative value); "
         "tie: bit-exact correspondence of the extracted model with Duration::try_from / Time::try_from for f32/f64 in five time base units over "
         "boundary classes (2^64, whole seconds +-2 ulps, tiny negatives, -0.0, NaN, inf) and for i64/u64/i32 over the WHOLE range of the type "
         "in four base units including which cases panic; the function bodies are pinned (Spec/BodyTie.v); an exact-rational spec checker",
    note=TB + "known findings: at integer storage the conversion panics when an intermediate Ratio<iN> overflows (class integer-intermediate-overflow = "
         "exactly the inputs on which the width-checked model overflows; i32-long-base-unit is the extreme case); num-rational is modelled, not verified",
    technique="Coq proof + extracted-model correspondence + exact oracle")

CLAIMED["C11"] = dict(
    text="Coq theorems about the Gallina transcription of format_arguments! and Debug for Quantity, parametric in the storage type's own "
         "formatting: output = storage text, one space, label; label = abbreviation / singular iff the converted value is one / plural; Debug "
         "suffix lists exactly the non-zero exponents in system order; tie: ~29 000 format!() results per run (8 fmt traits, width/fill/align/"
         "sign/#/0/precision, both styles, into_format_args and Arguments::with, f64/f32/i64/BigRational, default and km-g-h base units, values "
         "converting to exactly one) compared with the extracted model fed with the storage type's formatting of the converted value; units added downstream with unit! are in the stream",
    note=TB + "the digits are the storage type's (oracle produced in the same process); the numeric conversion is C03/C08's",
    technique="Coq proof of the composition + extracted-model correspondence with storage-format oracle")
CLAIMED["C12"] = dict(
    text="Coq theorems, parametric in the storage type's FromStr: parse_quantity is total; NoSeparator iff no space; then bad number; then "
         "unknown unit; success iff number + first space + (trimmed) registered label, selecting the first registered unit with that label; "
         "exhaustive table theorems on the regenerated SI tables: no label denotes two conversions within a quantity, no label has "
         "leading/trailing blanks; format-then-parse returns a unit with the same conversion and the printed number; tie: ~14 000 strings per "
         "run (every label class, malformed stream with Unicode blanks, wrong case, bad number and unit, other quantities' labels) parsed by the "
         "compiled crate and by the extracted model, successful parses compared with the conversion model's new::<unit>(value); format -> parse round trips on the implementation itself (f64: units x values x specs without width x both styles)",
    note=TB + "str::trim's White_Space set and splitn are modelled; the storage type's FromStr is an oracle reported by the harness; i64 storage "
         "scoped to units whose coefficient Ratio<i64> can hold",
    technique="Coq proof + exhaustive table evaluation + extracted-model correspondence")

CLAIMED["C08"] = dict(
    text="Axiom-free Coq theorems about the one transcription of to_base/from_base at rational storage (any base-unit vector, exponents, "
         "coefficient, offset, value; both branches, no side condition): construction and read-back equal the conversion formula, "
         "construct-then-read is the identity, two units differ by the coefficient ratio; integer storage equals that result truncated toward "
         "zero (with the specification of truncation); big-number powi is the rational power; FIXED WIDTH (Model/Fixed.v: the same conversion "
         "functions over a width-checked transcription of num-rational's Ratio<iN>, None = panic): for every width, unit, base-unit set and value, "
         "a conversion that returns a value returns the exact formula (rational), its truncation inside the type's range (integer), and re-basing "
         "preserves the physical magnitude; tie: BigRational/BigInt/BigUint results equal to the extracted model on every case; "
         "Rational64/i64/i32/u64 over the whole range of the type equal to the width-checked model INCLUDING which cases panic (run on the "
         "published coefficient()/constant()), Ratio<i8|i32|i64|u64> single operations equal to the same model, and every storage type equal "
         "to the exact rational formula applied to the PUBLISHED coefficient()/constant() (truncated for integers)",
    note=TB + "fixed-width types: coefficient() (num-rational's approximate_float) is an input; num-rational / num-integer / core integer pow are "
         "modelled (Model/Fixed.v), validated on ~70 000 edge and random single operations per run, not verified; unsigned types scoped to "
         "non-negative results",
    technique="Coq proof (exact arithmetic; width-checked Ratio<iN> model) + extracted-model correspondence + exact oracle on published coefficients")
CLAIMED["C09"] = dict(
    text="Axiom-free Coq theorems: a point is stored as (t+c)k/Th and read back inversely (offset applied once), intervals are linear and unit-"
         "preserving, (point in scale s) +/- (interval in scale s') read in s is t +/- delta k'/k also across temperature base units; on the "
         "regenerated tables: 0 degC = 273.15 K = 32 degF exactly, only the two point scales carry offsets, every interval unit is the offset-"
         "free twin of the point unit of the same name; tie: + - += -= and interval+point for f64/f32/BigRational over kelvin/millikelvin/"
         "kilokelvin base units on either side, every stage compared with the extracted model and the read-back with the formula; 0 degC = 273.15 K = 32 degF asked of the implementation in every precision and temperature base unit (the property's own numbers); same-base cases rerun without autoconvert; Saturating programs at integer storage; an offset scale added with unit!",
    note=TB + "typing facts (point+point rejected etc.) are decided by C02; float tolerance 64 ulps of the largest term",
    technique="Coq proof + exhaustive table evaluation + extracted-model correspondence")
CLAIMED["C16"] = dict(
    text="Coq theorems: at exact storage, for ANY rounding function r, r-in-unit read back in the unit is r of the original value in that unit, "
         "the result is independent of the base units, trunc+fract restores the original (offset-free units); at float storage (std, any "
         "precision) floor/ceil/trunc/round are the mathematical Zfloor/Zceil/Ztrunc/round-half-away of the value (integer-valued, bracketing); "
         "tie: 60 000 roundings per run (values given in the unit: integers, half-integers, k+-ulp, negatives, > 2^prec, specials; offset units; "
         "three base sets) compared bit-exactly with the extracted model and with the mathematical rounding of the original value in the unit",
    note=TB + "the float read-back accuracy is checked per case (few hundred ulps budget incl. offset), not by a general theorem; no-std roundings are C17's",
    technique="Coq proof + extracted-model bit-exact correspondence + exact oracle")

CLAIMED["C13"] = dict(
    text="Coq theorems parametric in the storage type's Serialize/Deserialize and in the data format: a quantity serializes to its stored "
         "value's serialization independently of dimension and base units, deserializes from exactly what the storage type accepts, and "
         "round-trips whenever the storage type does; tie: JSON text and serde_json::Value serialization, both round trips, and a catalogue "
         "of well- and ill-typed documents, for nine storage types x six dimensions x three base-unit sets, compared with the stored value's "
         "own (de)serialization in the same process; when the serde harness does not compile, rustc decides per quantity and storage type who implements Serialize / DeserializeOwned",
    note=TB + "thin model (forwarding law): the content is the per-case comparison with the storage type as oracle; formats exercised: serde_json text and Value",
    technique="Coq proof of the forwarding law + differential check against the storage type's serde")
CLAIMED["C18"] = dict(
    text="Coq theorems (any precision, any libm function f, any base-unit set incl. NaN coefficients): a dimensionless quantity's base factor is "
         "1, so inverse-trig/exp/log/atan2 results are stored as exactly f's value and an angle's stored value is its magnitude in radians; "
         "closed kernel-evaluated theorems on the regenerated tables for HALF_TURN/FULL_TURN/SPHERE in binary64 and binary32; tie: every angle "
         "and ratio unit x 6+2 trig, 6 inverse, 8 exp/log functions and atan2 over 5 dimensions x f64/f32 x two base sets, result compared "
         "bit for bit with the storage type's function of the stored magnitude (large arguments included), stored magnitude compared with the "
         "conversion model, constants compared exactly",
    note=TB + "libm is an oracle evaluated in the same process; agreement across units (90 deg vs pi/2 rad) is C03's conversion accuracy",
    technique="Coq proof + closed evaluation on regenerated tables + differential check against libm oracle")

CLAIMED["C01"] = dict(
    text="Axiom-free Coq theorems for exponent vectors of ANY length with unbounded integers: position-wise sum/difference/negation/product, roots "
         "exactly when divisible (inverting the power), abelian-group laws; and about the typing judgement `ty`: * / recip powi sqrt cbrt mul_add "
         "give the prescribed exponents and the default kind, a number on the left keeps the kind, + - % neg scalar rounding/sign/min/max/hypot "
         "return the left operand's type, a default-kind alias of the prescribed exponents accepts the product; tie: ~5 000 one-line programs "
         "over all 115 SI aliases and synthetic all-distinct exponent vectors compiled by rustc (with and without autoconvert), verdict and "
         "static result type (to_i32 of every exponent, Kind, base units) compared with the extracted judgement",
    note=TB + "typenum's type-level arithmetic is modelled as Z and validated on the exponents in use; rustc is the implementation for compile-time properties",
    technique="Coq proof + program-family correspondence against rustc")
CLAIMED["C02"] = dict(
    text="Axiom-free Coq theorems about `ty` for any kind table: additive/assigning operators only between the same dimension and kind carrying the "
         "marker, with exactly the point/interval exceptions; comparisons, let-binding, foreign units, roots, conversions; on the regenerated SI "
         "tables: temperature points cannot be added/subtracted/negated in any configuration, point+/-interval and interval+point give points, "
         "impl_from! pairs always have one default-kind side and never the temperature kind, only the temperature kind lacks markers; tie: ~40 000 "
         "generated programs per run (ordered class pairs x 16 forms, positive controls, mixed base sets, roots, number conversions; with and "
         "without autoconvert) classified per function by rustc JSON diagnostics behind sentinel-guarded shards; num_traits::Saturating programs at integer storage judged against the property's own expectations",
    note=TB + "quantifies over the generated program family, not all Rust programs; error codes are recorded (E0308/E0277/E0599/E0600), not judged",
    technique="Coq proof + program-family correspondence against rustc")
CLAIMED["C15"] = dict(
    text="Axiom-free Coq theorems: a conversion never changes an exponent and exists only as identity or through an impl_from! pair (SI: one side is "
         "always the default kind); numbers convert only to/from the default-kind dimensionless quantity; at exact storage the converted value has "
         "the same physical magnitude in the target's base units; with shared base units or without autoconvert the value is copied; tie: every "
         "special-kind SI quantity <-> default-kind twin, From and Into, f64/f32/BigRational over ordered base-set pairs and i64, number<->Ratio, "
         "against the extracted model (bit-exact/exact) and the magnitude equation; plus conversion programs classified by rustc",
    note=TB + "float accuracy of the re-basing inside a conversion is C06's",
    technique="Coq proof + extracted-model correspondence + program-family correspondence")

CLAIMED["C20"] = dict(
    text="The property is FALSE of the code (known finding complex-modulus, recorded in KNOWN_FINDINGS.txt). Coq theorems, parametric in libm's "
         "hypot: construction/read-back are exactly the real conversion of the modulus with imaginary part +0 (complete characterisation of the "
         "failure signature); the property does hold on the non-negative real axis; with autoconvert a same-base operator sees its right operand "
         "replaced by the modulus, without autoconvert it is complex arithmetic; refutation witness new::<meter>(3+4i) = 5+0i; tie: Complex64/"
         "Complex32 new/get/+/-/*/== over all quadrants, axes, signed zero imaginary parts, several units and base sets: each case is binned as "
         "`property holds` / `fails exactly as recorded (implementation = model of the defective code)` -> KNOWN-FINDING / `fails differently` -> VIOLATION",
    note=TB + "hypot is an oracle supplied per case by the harness; the property itself is not proved (it is refuted)",
    technique="Coq characterisation + refutation theorem; extracted-model correspondence pins the failure signature")

CLAIMED["C17"] = dict(
    text="Coq theorems: with shared base units (any set) every two-base operator and every operator history computes the same value with and "
         "without autoconvert (floats without NaN coefficients, rationals, integers; any storage operation); without autoconvert mixed-base "
         "operands are rejected by every two-base operator and otherwise the judgement does not depend on the flag; std/no-std are NOT "
         "bit-identical: two refutation witnesses (powi algorithms on 100^-3; FloatCore trunc of -0.3), agreement on unit base factors; tie: one "
         "transcript of ~16 000 operations (rounding-in-unit through to_base/from_base/powi, operator histories, temperature arithmetic, kind "
         "conversions; f64, f32) executed by the same harness source under the four {autoconvert} x {std} builds: autoconvert on/off must agree "
         "bit for bit, std/no-std must agree or fall in a recorded known class where each build equals the model run with its own float library "
         "(compiler-builtins powi vs num-traits FloatCore powi; IEEE vs FloatCore roundings); mixed-base programs classified by rustc",
    note=TB + "known findings nostd-powi and nostd-negzero (root cause: uom selects num_traits::float::FloatCore without std)",
    technique="Coq proof + four-configuration transcript correspondence + program-family correspondence")

CLAIMED["C19"] = dict(
    text="All general theorems of the development are stated for an arbitrary system (any number of base quantities, any base-unit coefficients, "
         "any unit tables); the downstream system of the harness (4 base quantities, fractional/1e18/offset coefficients, compound unit names; "
         "declared with system!/quantity! in harness/csys.rs) is translated by the same translator on every run and its table theorems are "
         "re-proved (composable names coherent, base units, labels unambiguous and trim-invariant, offsets; a unit absent from the registry is "
         "never parsed); tie: registry/dimension of every custom quantity, new/get of every custom unit x f64/f32/BigRational x three base "
         "tuples (CQ! aliases) bit-exact/exact against the extracted model, mixed-base operators and comparison rows, formatting and parsing "
         "against the text model, and units added with unit! to SI length, SI temperature (offset) and the custom system: conversion, "
         "formatting, absence from registry and parsing",
    note=TB + "dimension algebra of the custom system is exercised through the static types of the mixed-base operators (mul/div by Tick) rather than a separate program family",
    technique="Coq proof (general theorems + exhaustive evaluation on translated custom tables) + extracted-model correspondence")
CLAIMED["C04"] = dict(
    category="other",
    text="PARTIAL. Coq theorems (any precision, every value incl. -0.0/inf/NaN): x + (-0.0) = x and x - (+0.0) = x (and not with the zeros "
         "exchanged), construction with default base units is ONE multiplication by the coefficient, read-back ONE division or multiplication "
         "by the folded reciprocal, the coherent base unit is the identity function, same-base operators are the single raw operation; tie: "
         "Quantity::new/get compared bit for bit with a separately compiled bare-number reference with the factor folded to one constant "
         "(7 200 cases, both float types, all value classes); capability equality quantity <-> storage type for 14 traits x 11 storage types "
         "decided by rustc on both sides; size/align/niche equality. NOT decided: identity of optimised machine code, call ABI, "
         "#[repr(transparent)], #[inline(always)] — facts about rustc/LLVM output that no executable Gallina model expresses",
    note=TB + "a change that keeps every function extensionally equal but costs instructions (e.g. dropping #[inline(always)]) is not detected",
    technique="Coq proof of the semantic fold identities + differential check against bare-number reference + compile probes")

NOT_YET = "check under construction in this build phase; will be claimed once bin/check implements it"


def main():
    path = os.path.join(C.VERIF, "MANIFEST.json")
    m = json.load(open(path))
    props = [json.loads(l)["id"] for l in open(os.path.join(C.VERIF, "properties.jsonl"))]
    checks = []
    for pid in props:
        if pid in CLAIMED:
            c = CLAIMED[pid]
            checks.append({
                "property_id": pid,
                "quick_cmd": f"bin/check {pid} quick",
                "thorough_cmd": f"bin/check {pid} thorough",
                "evidence_file": f"evidence/{pid}.json",
                "replay_cmd_template": f"bin/check {pid} --replay {{path}}",
                "engine": "coq-uomv",
                "level_claimed": {"category": c.get("category", "proof"), "text": c["text"], "design_ref": f"DESIGN.md §4 {pid}"},
                "level_note": c["note"],
                "technique": c["technique"],
            })
    m["checks"] = checks
    m["not_applicable"] = [{"property_id": p, "reason": NA.get(p, NOT_YET)} for p in props if p not in CLAIMED]
    m["engines"] = [{"name": "coq-uomv", "path": "coq/", "serves_properties": sorted(CLAIMED),
                     "kind_free_text": "Coq 8.16.1 development UomV (Gallina model + proofs), extracted OCaml runner, translator, Rust harness generator"}]
    json.dump(m, open(path, "w"), indent=1)
    print(f"MANIFEST: {len(checks)} checks, {len(m['not_applicable'])} not claimed")


NA = {}

if __name__ == "__main__":
    main()
