"""Float value classes for the correspondence streams (DESIGN §2.5) and exact ulp arithmetic."""
from fractions import Fraction

FMT = {
    "f64": {"prec": 53, "emax": 1024, "ew": 11, "bits": 64, "hex": 16},
    "f32": {"prec": 24, "emax": 128, "ew": 8, "bits": 32, "hex": 8},
}


def is_nan_bits(b, ty):
    f = FMT[ty]
    mw = f["prec"] - 1
    e = (b >> mw) & ((1 << f["ew"]) - 1)
    m = b & ((1 << mw) - 1)
    return e == (1 << f["ew"]) - 1 and m != 0


def is_inf_bits(b, ty):
    f = FMT[ty]
    mw = f["prec"] - 1
    e = (b >> mw) & ((1 << f["ew"]) - 1)
    m = b & ((1 << mw) - 1)
    return e == (1 << f["ew"]) - 1 and m == 0


def bits_to_frac(b, ty):
    """Exact value of a finite bit pattern."""
    f = FMT[ty]
    mw = f["prec"] - 1
    s = (b >> (mw + f["ew"])) & 1
    e = (b >> mw) & ((1 << f["ew"]) - 1)
    m = b & ((1 << mw) - 1)
    emin = 3 - f["emax"] - f["prec"]
    if e == 0:
        v = Fraction(m) * Fraction(2) ** emin
    else:
        v = Fraction(m + (1 << mw)) * Fraction(2) ** (e - 1 + emin)
    return -v if s else v


def hexbits(b, ty):
    return format(b, "0%dx" % FMT[ty]["hex"])


def canon_model(zstr, ty):
    """Model output (decimal Z of the bit pattern) -> canonical text as printed by the harness."""
    try:
        b = int(zstr)
    except (TypeError, ValueError):
        return zstr
    if is_nan_bits(b, ty):
        return "nan"
    return hexbits(b, ty)


def special_values(ty):
    f = FMT[ty]
    mw = f["prec"] - 1
    ew = f["ew"]
    sign = 1 << (mw + ew)
    expmax = ((1 << ew) - 1) << mw
    bias = (1 << (ew - 1)) - 1
    one = bias << mw
    out = {
        "+0": 0, "-0": sign,
        "+minsub": 1, "-minsub": sign | 1,
        "+maxsub": (1 << mw) - 1,
        "+minnorm": 1 << mw, "-minnorm": sign | (1 << mw),
        "+max": expmax - 1, "-max": sign | (expmax - 1),
        "+inf": expmax, "-inf": sign | expmax,
        "nan": expmax | (1 << (mw - 1)),
        "1": one, "-1": sign | one,
        "1+ulp": one + 1, "1-ulp": one - 1,
        "2": (bias + 1) << mw, "0.5": (bias - 1) << mw,
        "2^prec": (bias + f["prec"]) << mw,
        "2^prec+2": ((bias + f["prec"]) << mw) + 1,
        "1.5": one | (1 << (mw - 1)), "-2.5": sign | ((bias + 1) << mw) | (1 << (mw - 2)),
    }
    return out


def random_value(rng, ty, lo_exp=None, hi_exp=None):
    """Random finite normal value with exponent field in a range (default: moderate magnitudes)."""
    f = FMT[ty]
    mw = f["prec"] - 1
    ew = f["ew"]
    bias = (1 << (ew - 1)) - 1
    lo = bias - 40 if lo_exp is None else lo_exp
    hi = bias + 40 if hi_exp is None else hi_exp
    e = lo + rng.below(hi - lo + 1)
    m = rng.next() & ((1 << mw) - 1)
    s = rng.below(2)
    return (s << (mw + ew)) | (e << mw) | m


def binade_values(rng, ty, count):
    """Random mantissa in `count` binades spread over the whole exponent range."""
    f = FMT[ty]
    ew = f["ew"]
    out = []
    n = (1 << ew) - 1
    for k in range(count):
        e = (k * (n - 1)) // max(1, count - 1)
        out.append(random_value(rng, ty, e, e))
    return out


def ulp_of(x, ty):
    """ulp (as Fraction) at the magnitude of the exact rational x (>= min subnormal spacing)."""
    f = FMT[ty]
    emin = 3 - f["emax"] - f["prec"]
    if x == 0:
        return Fraction(2) ** emin
    ax = abs(x)
    # exponent e with 2^e <= ax < 2^(e+1)
    e = ax.numerator.bit_length() - ax.denominator.bit_length()
    if Fraction(2) ** e > ax:
        e -= 1
    elif Fraction(2) ** (e + 1) <= ax:
        e += 1
    return Fraction(2) ** max(e - f["prec"] + 1, emin)


def in_normal_range(x, ty, margin=2):
    f = FMT[ty]
    if x == 0:
        return False
    ax = abs(x)
    lo = Fraction(2) ** (3 - f["emax"] - 1 + margin)      # 2^(emin+prec-1) = 2^(2-emax)
    hi = Fraction(2) ** (f["emax"] - margin)
    return lo <= ax < hi
