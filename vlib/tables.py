"""Run the translator on /repo and give Python access to the translated tables."""
import os
import sys
from fractions import Fraction

from . import common as C

sys.path.insert(0, os.path.join(C.VERIF, "translator"))
import uom2coq  # noqa: E402


class Tables:
    def __init__(self, data):
        self.d = data
        self.base = data["base"]
        self.quantities = data["quantities"]
        self.kinds = data["kinds"]
        self.impl_from = data["impl_from"]
        self.prefix_q = data["prefix_q"]
        self.qmap = {q["module"]: q for q in self.quantities}
        self.nbase = len(self.base)
        self.reading_stats = data.get("reading_stats", {})
        self.custom = Tables(data["custom"]) if "custom" in data else None

    def unit(self, module, name):
        for u in self.qmap[module]["units"]:
            if u["name"] == name:
                return u
        raise KeyError((module, name))

    def all_units(self):
        for q in self.quantities:
            for u in q["units"]:
                yield q, u

    def base_unit_exprs(self, unit_names):
        """unit_names: one unit name per base quantity -> list of expr json."""
        out = []
        for b, n in zip(self.base, unit_names):
            out.append(self.unit(b["name"], n)["coef"])
        return out


def translate(repo=None):
    """Regenerate Gen/ from the current tree.  Returns (Tables, changed, message) or raises."""
    repo = repo or C.REPO
    C.ensure_dir(C.GEN)
    tables = uom2coq.translate_si(repo)
    v = uom2coq.emit(tables)
    import json
    data = uom2coq.tables_json(tables)
    import readings
    rv, rstats, _survey = readings.emit_readings(tables)
    ch1 = C.write_if_changed(os.path.join(C.GEN, "SiTables.v"), v)
    ch1 = C.write_if_changed(os.path.join(C.GEN, "SiReadings.v"), rv) or ch1
    data["reading_stats"] = rstats
    # the downstream system of the harness (C19): same translator, same generated structure, prefix cs_
    cpath = os.path.join(C.VERIF, "harness", "csys.rs")
    ctab = uom2coq.translate_file(cpath, repo)
    crv, crstats, _ = readings.emit_readings(ctab, prefix="cs")
    ch1 = C.write_if_changed(os.path.join(C.GEN, "CustomTables.v"), uom2coq.emit(ctab, "cs")) or ch1
    ch1 = C.write_if_changed(os.path.join(C.GEN, "CustomReadings.v"), crv) or ch1
    # the source of the three conversion functions and of struct Quantity (src/system.rs) as syntax trees
    import convbody
    sv, sinfo = convbody.emit(repo)
    ch1 = C.write_if_changed(os.path.join(C.GEN, "ConvSrc.v"), sv) or ch1
    data["conv_src"] = {"to_base": [sinfo["to_base"]["cond"], sinfo["to_base"]["then"], sinfo["to_base"]["else"]],
                        "from_base": [sinfo["from_base"]["cond"], sinfo["from_base"]["then"], sinfo["from_base"]["else"]],
                        "change_base": [sinfo["change_base"]["cond"], sinfo["change_base"]["then"], sinfo["change_base"]["else"]],
                        "errors": sinfo["errors"], "struct_attrs": sinfo["struct"]["attrs"], "struct_fields": [list(f) for f in sinfo["struct"]["fields"]]}
    # the bodies of every function that re-bases an operand, and of its not_autoconvert twin
    import opsbody
    ov, oents = opsbody.emit(repo)
    ch1 = C.write_if_changed(os.path.join(C.GEN, "OpsSrc.v"), ov) or ch1
    data["ops_src"] = [{"file": e["file"], "line": e["line"], "flavour": e["flavour"], "trait": e["trait"], "fn": e["fn"], "body": e["term"]} for e in oents]
    import delegbody
    dv, drows = delegbody.emit(repo)
    ch1 = C.write_if_changed(os.path.join(C.GEN, "DelegSrc.v"), dv) or ch1
    data["deleg_src"] = drows
    import storagebody
    stv, strows = storagebody.emit(repo)
    ch1 = C.write_if_changed(os.path.join(C.GEN, "StorageSrc.v"), stv) or ch1
    data["storage_src"] = [list(r) for r in strows]
    import bodypin
    bv, brows = bodypin.emit(repo)
    ch1 = C.write_if_changed(os.path.join(C.GEN, "BodySrc.v"), bv) or ch1
    data["body_src"] = brows
    cdata = uom2coq.tables_json(ctab)
    cdata["reading_stats"] = crstats
    data["custom"] = cdata
    j = json.dumps(data, ensure_ascii=False, indent=0, sort_keys=True)
    C.write_if_changed(os.path.join(C.GEN, "si_tables.json"), j)
    return Tables(json.loads(j)), ch1


def sexp(e):
    """expr json -> s-expression understood by the runner (prefix arms inlined, like rustc does)."""
    if e is None:
        return "-"
    if "lit" in e:
        return f"(L {e['lit'][0]} {e['lit'][1]})"
    if "mul" in e:
        return f"(M {sexp(e['mul'][0])} {sexp(e['mul'][1])})"
    if "div" in e:
        return f"(D {sexp(e['div'][0])} {sexp(e['div'][1])})"
    if "neg" in e:
        return f"(N {sexp(e['neg'])})"
    if "prefix" in e:
        return sexp(e["body"])
    raise ValueError(e)


def sexp_list(es):
    return "(" + " ".join(sexp(e) for e in es) + ")"


def zlist(zs):
    return "(" + " ".join(str(z) for z in zs) + ")"


def frac(e):
    if e is None:
        return Fraction(0)
    if "lit" in e:
        return Fraction(int(e["lit"][0])) * Fraction(10) ** e["lit"][1]
    if "mul" in e:
        return frac(e["mul"][0]) * frac(e["mul"][1])
    if "div" in e:
        return frac(e["div"][0]) / frac(e["div"][1])
    if "neg" in e:
        return -frac(e["neg"])
    if "prefix" in e:
        return frac(e["body"])
    raise ValueError(e)


# Base-unit sets of the correspondence streams (DESIGN §2.5).  Each names one unit per SI base
# quantity, in system order (length, mass, time, current, temperature, amount, luminous intensity).
BASE_SETS = {
    "si": ("meter", "kilogram", "second", "ampere", "kelvin", "mole", "candela"),
    "cgs": ("centimeter", "gram", "second", "ampere", "kelvin", "mole", "candela"),
    "kgh": ("kilometer", "gram", "hour", "milliampere", "millikelvin", "kilomole", "candela"),
    "fpm": ("foot", "pound", "minute", "ampere", "kelvin", "mole", "candela"),
    "mtm": ("millimeter", "ton", "millisecond", "kiloampere", "kilokelvin", "millimole", "candela"),
    # base-unit tuples of the harness' own 4-base system (harness/csys.rs)
    "cdef": ("pace", "stone", "beat", "degree_a"),
    "calt": ("league", "feather", "blink", "millidegree_a"),
    "cbig": ("gigapace", "mountain", "age", "degree_a"),
    # sub-multiples whose powers leave the range of f32 (1e-15 ^ 3) and of i32 as a ratio (10^6 ^ 2): same-base operations must not care
    "ufs": ("micrometer", "milligram", "femtosecond", "ampere", "kelvin", "mole", "candela"),
    "ums": ("micrometer", "milligram", "microsecond", "ampere", "kelvin", "mole", "candela"),
    "tiny": ("yoctometer", "yoctogram", "yoctosecond", "yoctoampere", "yoctokelvin", "yoctomole", "yoctocandela"),
}
