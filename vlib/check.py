"""Check protocol shared by all properties (DESIGN §2.3): translate -> make -> proof gate ->
correspondence -> spec checker -> decide -> evidence."""
import json
import os
import sys
import time
import traceback

from . import common as C
from . import coqbuild, tables
from .harness import Harness

KNOWN_FILE = os.path.join(C.VERIF, "KNOWN_FINDINGS.txt")

TRUSTED_BASE = [
    "Coq 8.16.1 kernel incl. vm_compute (no native_compute)",
    "axioms (Coq standard library only): ClassicalDedekindReals.sig_forall_dec, ClassicalDedekindReals.sig_not_dec, "
    "Classical_Prop.classic, FunctionalExtensionality.functional_extensionality_dep (float theorems; via Reals/Flocq); "
    "exact-arithmetic, dimension, typing and table theorems are closed under the global context",
    "Flocq 4.1.0 (Core, IEEE754.BinarySingleNaN, Prop.Relative)",
    "translator /verif/translator/uom2coq.py (validated per run against the compiled crate: coefficient bits, registry)",
    "extraction with ExtrOcamlBasic only (bool, option, unit, list, prod, sumbool, sumor; andb/orb inlined), OCaml 4.13.1 + zarith for I/O; "
    "a sample of runner results is re-evaluated by vm_compute on every run",
    "Rust/OCaml/Python I/O glue of harness and runner; rustc 1.95 dev profile as the implementation for compile-time properties",
    "modelled, not verified: typenum, num-rational/num-bigint, CPU IEEE-754 conformance, compiler-builtins powi loop, libm/Display/FromStr/serde/Hash of storage types (oracles)",
]


def load_known():
    known, fixed = [], []
    if os.path.exists(KNOWN_FILE):
        for line in open(KNOWN_FILE, encoding="utf-8"):
            line = line.strip()
            if not line or line.startswith("#"):
                continue
            kind, _, rest = line.partition(":")
            fields = {}
            what = ""
            if " what=" in rest:
                rest, what = rest.split(" what=", 1)
            for tok in rest.split():
                if "=" in tok:
                    k, v = tok.split("=", 1)
                    fields[k] = v
            fields["what"] = what
            (known if kind == "known" else fixed).append(fields)
    return known, fixed


class Ctx:
    def __init__(self, pid, tier, seed):
        self.pid = pid
        self.tier = tier
        self.seed = seed
        self.rng = C.SplitMix64(seed).fork(pid)
        self.t0 = time.time()
        self.violations = []       # (replay_path, no_input)
        self.known_seen = {}       # class -> (what, count)
        self.known, self.fixed = load_known()
        self.coverage = {"trusted_base": list(TRUSTED_BASE)}
        self.assumptions = []
        self.obligations = 0
        self.discharged = 0
        self.theorems = {}
        self.level = "proof"
        self.tables = None
        self.notes = []
        C.ensure_dir(C.REPLAY)

    # ---- reporting
    def log(self, msg):
        print(f"[{self.pid} {time.time() - self.t0:6.1f}s] {msg}", flush=True)

    def violation(self, replay, no_input=False):
        n = len(self.violations)
        path = os.path.join(C.REPLAY, f"{self.pid}_{n}.json")
        replay = dict(replay)
        replay["property"] = self.pid
        replay["seed"] = self.seed
        replay["tier"] = self.tier
        with open(path, "w", encoding="utf-8") as f:
            json.dump(replay, f, indent=1, ensure_ascii=False, default=str)
        self.violations.append((path, no_input))
        return path

    def known_class(self, cls):
        """Is `cls` a recorded known finding of this property?"""
        for k in self.known:
            if k.get("property") == self.pid and k.get("class") == cls:
                return k
        return None

    def known_hit(self, cls, what=None):
        k = self.known_class(cls)
        if k is None:
            return False
        w, c = self.known_seen.get(cls, (what or k.get("what", ""), 0))
        self.known_seen[cls] = (w, c + 1)
        return True

    # ---- steps
    def translate(self):
        try:
            self.tables, changed = tables.translate()
            self.log(f"translated tables (changed={changed})")
            return True
        except Exception as e:  # TranslateError or IO
            self.log(f"translator failed: {e}")
            self.violation({"kind": "translator", "obligation": "translator/uom2coq.py could not read the source tables",
                            "error": str(e)}, no_input=True)
            return False

    def proof_gate(self, props_rel, module, support=()):
        """Build the property's .vo, audit its theorems.  Returns True iff all discharged."""
        target = props_rel[:-2] + ".vo"
        ok, out = coqbuild.make([target])
        names = coqbuild.theorems_in(props_rel)
        self.obligations = len(names)
        self.coverage["theorems"] = names
        self.coverage["supporting_lemmas"] = coqbuild.lemma_count(support)
        self.coverage["checker_cmd"] = (f"make -C /verif/coq {target} && coqc Audit (Print Assumptions of each theorem vs allowlist) "
                                        f"&& grep forbidden tokens")
        if not ok:
            tail = out[-3000:]
            self.log("coq build FAILED:\n" + tail)
            self.proof_error = tail
            self.discharged = 0
            return False
        hits = coqbuild.grep_forbidden()
        if hits:
            self.log(f"forbidden constructs: {hits}")
            self.proof_error = f"forbidden constructs {hits}"
            return False
        res = coqbuild.audit(module, names)
        self.theorems = {t: (ok_, ax) for t, (ok_, ax) in res.items()}
        self.discharged = sum(1 for t in names if res[t][0])
        axioms = sorted({a for t in names if res[t][0] for a in res[t][1]})
        self.coverage["axioms_used"] = axioms
        if self.discharged != self.obligations:
            bad = {t: res[t][1] for t in names if not res[t][0]}
            self.proof_error = f"audit failed: {bad}"
            self.log(self.proof_error)
            return False
        self.log(f"proof gate: {self.discharged}/{self.obligations} theorems, axioms={axioms or 'none'}")
        if self.tier == "thorough":
            # the independent checker on the compiled property module and all its dependencies
            okc, chk_ax, chk_out = coqbuild.coqchk(module)
            self.coverage["coqchk"] = {"accepted": okc, "axioms_of_all_loaded_libraries": chk_ax}
            allowed = {"Coq.Logic.FunctionalExtensionality.functional_extensionality_dep", "Coq.Reals.ClassicalDedekindReals.sig_not_dec",
                       "Coq.Reals.ClassicalDedekindReals.sig_forall_dec", "Coq.Logic.Classical_Prop.classic"}
            if not okc or not set(chk_ax) <= allowed:
                self.proof_error = f"coqchk: accepted={okc} axioms={chk_ax} {chk_out[-600:]}"
                self.log(self.proof_error)
                return False
            self.log(f"coqchk accepted {module}; axioms of all loaded libraries: {chk_ax or 'none'}")
        return True

    def vm_crosscheck(self, mlines, model, n=40):
        """Extraction is in the trusted base: re-evaluate a seed-drawn sample of the runner's answers inside Coq (vm_compute)."""
        checked, bad, err = coqbuild.vm_sample_check(mlines, model, self.rng.fork("vm-sample"), n)
        self.coverage["vm_crosschecked"] = checked
        if err:
            self.violation({"kind": "vm-crosscheck", "obligation": "vm_compute re-evaluation of runner results failed to run", "log": err}, no_input=True)
        elif bad:
            self.violation({"kind": "vm-crosscheck", "obligation": "the extracted runner disagrees with vm_compute on the same requests",
                            "cases": [l for l in mlines if l.split(" ", 1)[0] in bad][:5]}, no_input=True)

    def finish(self):
        wall = time.time() - self.t0
        cov = self.coverage
        cov["obligations"] = self.obligations
        cov["discharged"] = self.discharged
        cov.setdefault("checker_cmd", "n/a")
        cov.setdefault("evaluations", 0)
        cov.setdefault("distinct_nontrivial", 0)
        cov.setdefault("samples", [])
        cov["known_findings_seen"] = {k: {"what": w, "cases": c} for k, (w, c) in self.known_seen.items()}
        if self.notes:
            cov["notes"] = self.notes
        ev = {"property_id": self.pid, "tier": self.tier, "seed": self.seed, "level": self.level,
              "coverage": cov, "assumptions": self.assumptions or list(TRUSTED_BASE), "wall_s": round(wall, 2),
              "violations": len(self.violations)}
        C.ensure_dir(C.EVIDENCE)
        with open(os.path.join(C.EVIDENCE, f"{self.pid}.json"), "w", encoding="utf-8") as f:
            json.dump(ev, f, indent=1, ensure_ascii=False, default=str)
        for cls, (what, cnt) in sorted(self.known_seen.items()):
            print(f"KNOWN-FINDING: property={self.pid} class={cls} cases={cnt} {what}")
        concrete = [p_ for p_, ni in self.violations if not ni]
        if concrete:
            # the search found a failing input: it is the replay; the obligations that broke are recorded inside it
            broken = []
            for p_, ni in self.violations:
                if ni:
                    try:
                        with open(p_, encoding="utf-8") as f:
                            b_ = json.load(f)
                        broken.append({k: (str(v)[:600]) for k, v in b_.items() if k in ("kind", "obligation", "count", "model")})
                    except Exception:
                        pass
            if broken:
                with open(concrete[0], encoding="utf-8") as f:
                    r_ = json.load(f)
                r_["broken_obligations"] = broken
                with open(concrete[0], "w", encoding="utf-8") as f:
                    json.dump(r_, f, indent=1, ensure_ascii=False, default=str)
            for path in concrete:
                print(f"VIOLATION property={self.pid} replay={path}")
        else:
            for path, no_input in self.violations:
                print(f"VIOLATION property={self.pid} replay={path} no-failing-input-found")
        self.log(f"done: violations={len(self.violations)} known={len(self.known_seen)} wall={wall:.1f}s")
        return 1 if self.violations else 0


def diff_results(impl, model, ids):
    """ids: iterable of case ids.  Returns list of ids where impl != model (missing counts)."""
    bad = []
    for i in ids:
        if impl.get(i) != model.get(i):
            bad.append(i)
    return bad


def main(argv):
    import importlib
    if len(argv) < 2:
        print("usage: bin/check Cxx [quick|thorough] | Cxx --replay <file>")
        return 2
    pid = argv[1]
    tier = os.environ.get("VERIF_TIER") or "quick"
    replay = None
    rest = argv[2:]
    i = 0
    while i < len(rest):
        if rest[i] == "--replay":
            replay = rest[i + 1]
            i += 2
        elif rest[i] in ("quick", "thorough"):
            tier = rest[i]
            i += 1
        else:
            i += 1
    seed = C.seed_from_env()
    try:
        mod = importlib.import_module(f"vlib.props.{pid.lower()}")
    except ModuleNotFoundError:
        print(f"no check implemented for {pid}")
        return 2
    ctx = Ctx(pid, tier, seed)
    if replay:
        return mod.replay(ctx, replay) if hasattr(mod, "replay") else generic_replay(ctx, replay)
    try:
        mod.run(ctx)
    except Exception:
        traceback.print_exc()
        ctx.violation({"kind": "internal", "obligation": "check machinery raised an exception",
                       "error": traceback.format_exc()[-2000:]}, no_input=True)
    return ctx.finish()


def generic_replay(ctx, path):
    """Re-run the recorded cases of a replay file on implementation and model."""
    rp = C.load_json(path)
    print(json.dumps({k: rp[k] for k in rp if k not in ("harness",)}, indent=1, ensure_ascii=False, default=str)[:6000])
    hz = rp.get("harness")
    if not hz:
        print("(no executable cases recorded: the replay names the obligation that no longer checks)")
        return 0
    h = Harness("replay", hz["features"], prelude=hz.get("prelude", ""), shards=1,
                default_features=hz.get("default_features", False), extra_deps=hz.get("extra_deps", ""))
    cases = []
    for k, c in enumerate(hz["cases"]):
        s = h.slot(c["slot_body"])
        cases.append((f"r{k}", s, c["args"]))
    if not h.build():
        print(h.build_log[-3000:])
        return 1
    res = h.run(cases)
    ok, _ = coqbuild.build_runner()
    mres = coqbuild.run_model([f"r{k} {c['model']}" for k, c in enumerate(hz["cases"]) if c.get("model")]) if ok else {}
    rc = 0
    for k, c in enumerate(hz["cases"]):
        i, m = res.get(f"r{k}"), mres.get(f"r{k}")
        print(f"case {k}: args={c['args']} implementation={i} model={m} expected={c.get('expected')}")
        if c.get("model") and i != m:
            rc = 1
        if i in (None, "PANIC"):
            rc = 1
    return rc
