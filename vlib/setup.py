"""setup_cmd: build everything the checks need from files on disk only (offline).
  1. translate /repo's tables -> coq/theories/Gen
  2. coq_makefile + full `make` of the Coq development (.vo, no quick modes)
  3. extract the model and compile the OCaml runner
  4. warm the shared cargo target directory with uom built under the feature sets the checks use
Every check re-does 1-3 incrementally (hash/mtime cached) and rebuilds the harness against the
current /repo working tree, so nothing here is trusted by a check; this only saves time."""
import sys
import time

from . import common as C
from . import coqbuild, tables
from .harness import Harness, FEATURE_SETS


def main():
    t0 = time.time()
    rc = 0
    try:
        t, changed = tables.translate()
        print(f"[setup {time.time()-t0:6.1f}s] translated tables: {len(t.quantities)} quantities", flush=True)
    except Exception as e:
        print(f"[setup] translator failed: {e}")
        rc = 1
    ok, out = coqbuild.make()
    print(f"[setup {time.time()-t0:6.1f}s] coq make: {'ok' if ok else 'FAILED'}", flush=True)
    if not ok:
        print(out[-4000:])
        rc = 1
    ok, out = coqbuild.build_runner()
    print(f"[setup {time.time()-t0:6.1f}s] runner: {'ok' if ok else 'FAILED'}", flush=True)
    if not ok:
        print(out[-4000:])
        rc = 1
    names = sys.argv[1:] or list(FEATURE_SETS)
    for name in names:
        h = Harness(f"warm_{name}", FEATURE_SETS[name], shards=1)
        h.slot('    "ok".to_string()')
        ok = h.build()
        print(f"[setup {time.time()-t0:6.1f}s] uom [{name}]: {'ok' if ok else 'FAILED'}", flush=True)
        if not ok:
            print(h.build_log[-3000:])
            rc = 1
    print(f"[setup {time.time()-t0:6.1f}s] done rc={rc}")
    return rc


if __name__ == "__main__":
    sys.exit(main())
