"""Shared helpers: paths, subprocess, deterministic PRNG, float bit utilities."""
import hashlib
import json
import os
import struct
import subprocess
import sys
import time

VERIF = os.path.abspath(os.path.join(os.path.dirname(__file__), ".."))
REPO = os.environ.get("UOM_REPO", "/repo")
BUILD = os.path.join(VERIF, ".build")
COQ = os.path.join(VERIF, "coq")
GEN = os.path.join(COQ, "theories", "Gen")
TARGET = os.path.join(BUILD, "target")
EVIDENCE = os.path.join(VERIF, "evidence")
REPLAY = os.path.join(BUILD, "replay")
NCPU = os.cpu_count() or 4

CARGO_ENV = dict(os.environ, CARGO_NET_OFFLINE="true", CARGO_TARGET_DIR=TARGET,
                 CARGO_TERM_COLOR="never", RUSTFLAGS=os.environ.get("VERIF_RUSTFLAGS", "--cfg uom_verif --cap-lints allow"))


def sh(cmd, cwd=None, env=None, timeout=None, check=False, input=None):
    """Run a command, return (rc, stdout+stderr)."""
    try:
        p = subprocess.run(cmd, cwd=cwd, env=env, timeout=timeout, input=input,
                           stdout=subprocess.PIPE, stderr=subprocess.STDOUT, text=True,
                           shell=isinstance(cmd, str))
    except subprocess.TimeoutExpired as e:
        out = e.stdout or ""
        if isinstance(out, bytes):
            out = out.decode("utf-8", "replace")
        return 124, out + f"\n[timeout after {timeout}s]"
    if check and p.returncode != 0:
        sys.stderr.write(p.stdout)
        raise RuntimeError(f"command failed ({p.returncode}): {cmd}")
    return p.returncode, p.stdout


def ensure_dir(d):
    os.makedirs(d, exist_ok=True)
    return d


def write_if_changed(path, text):
    old = None
    if os.path.exists(path):
        with open(path, encoding="utf-8") as f:
            old = f.read()
    if old != text:
        ensure_dir(os.path.dirname(path))
        with open(path, "w", encoding="utf-8") as f:
            f.write(text)
        return True
    return False


class SplitMix64:
    """One PRNG state; every random choice of a check is drawn from it."""
    MASK = (1 << 64) - 1

    def __init__(self, seed):
        self.s = seed & self.MASK

    def next(self):
        self.s = (self.s + 0x9E3779B97F4A7C15) & self.MASK
        z = self.s
        z = ((z ^ (z >> 30)) * 0xBF58476D1CE4E5B9) & self.MASK
        z = ((z ^ (z >> 27)) * 0x94D049BB133111EB) & self.MASK
        return z ^ (z >> 31)

    def below(self, n):
        return self.next() % n

    def choice(self, xs):
        return xs[self.below(len(xs))]

    def sample(self, xs, k):
        xs = list(xs)
        k = min(k, len(xs))
        for i in range(k):
            j = i + self.below(len(xs) - i)
            xs[i], xs[j] = xs[j], xs[i]
        return xs[:k]

    def fork(self, label):
        h = hashlib.sha256(f"{self.s}:{label}".encode()).digest()
        return SplitMix64(int.from_bytes(h[:8], "little"))


def seed_from_env():
    try:
        return int(os.environ.get("VERIF_SEED", "20260926"))
    except ValueError:
        return 20260926


def f64_bits(x):
    return struct.unpack("<Q", struct.pack("<d", x))[0]


def bits_f64(b):
    return struct.unpack("<d", struct.pack("<Q", b))[0]


def f32_bits(x):
    return struct.unpack("<I", struct.pack("<f", x))[0]


def bits_f32(b):
    return struct.unpack("<f", struct.pack("<I", b))[0]


def now():
    return time.time()


def sha(text):
    return hashlib.sha256(text.encode("utf-8")).hexdigest()


def load_json(path):
    with open(path, encoding="utf-8") as f:
        return json.load(f)
