"""Compile-time program families (C01, C02, C04, C15, C17): generate one-line Rust functions over
quantity types, ask the extracted typing model whether each compiles and with which static type,
and ask rustc (cargo check, JSON diagnostics, one function per line) the same question."""
import json
import os
import re
import subprocess

from . import common as C
from . import coqbuild, tables as T

TN = {0: "Z0"}
for _k in range(1, 40):
    TN[_k] = f"P{_k}"
    TN[-_k] = f"N{_k}"

BASES = {0: "si", 1: "kgh"}


def units_ty(base, v="f64"):
    return f"uom::si::SI<{v}>" if base == 0 else f"bs_{BASES[base]}_{v}::Units"


class QT:
    """A quantity type: dims, kind name, base id; rendered as a named alias when it is one."""

    def __init__(self, dims, kind, base, module=None, alias=None):
        self.dims, self.kind, self.base, self.module, self.alias = list(dims), kind, base, module, alias

    def rust(self, v="f64"):
        u = units_ty(self.base, v)
        if self.alias:
            return f"uom::si::{self.module}::{self.alias}<{u}, {v}>"
        ds = ", ".join(f"{s} = uom::typenum::{TN[d]}" for s, d in zip(("L", "M", "T", "I", "Th", "N", "J"), self.dims))
        kind = "uom::Kind" if self.kind == "Kind" else f"uom::si::marker::{self.kind}"
        return f"uom::si::Quantity<dyn uom::si::Dimension<{ds}, Kind = dyn {kind}>, {u}, {v}>"

    def sexp(self):
        return f"({T.zlist(self.dims)} {self.kind} {self.base})"

    def key(self):
        return (tuple(self.dims), self.kind, self.base)


def header_sexp(t, ac, std):
    kinds = " ".join(f"({n} ({' '.join(k['markers'])}) {1 if k['inherits_kind'] else 0})" for n, k in t.kinds.items())
    froms = " ".join(f"({a} {b})" for a, b in t.impl_from)
    temp = T.zlist(t.qmap["thermodynamic_temperature"]["dim"])
    return f"(({kinds}) ({froms}) {t.nbase} {temp} {1 if ac else 0} {1 if std else 0}"


PRELUDE = """#![allow(unused, non_camel_case_types, clippy::all)]
#[macro_use]
extern crate uom;
pub mod bs_kgh_f64 { ISQ!(uom::si, f64, (kilometer, gram, hour, milliampere, millikelvin, kilomole, candela)); }
use uom::typenum::Integer;
pub fn d<D: uom::si::Dimension + ?Sized, U: uom::si::Units<f64> + ?Sized>(_q: &uom::si::Quantity<D, U, f64>) -> String {
    format!("{} {} {} {} {} {} {}|{}|{}", D::L::to_i32(), D::M::to_i32(), D::T::to_i32(), D::I::to_i32(), D::Th::to_i32(), D::N::to_i32(), D::J::to_i32(),
        std::any::type_name::<D::Kind>(), std::any::type_name::<U>())
}
"""


class Program:
    def __init__(self, sexp, params, body, note=""):
        self.sexp, self.params, self.body, self.note = sexp, params, body, note

    def rust_fn(self, name):
        ps = ", ".join(f"{n}: {ty}" for n, ty in self.params)
        return f"pub fn {name}({ps}) -> String {{ {self.body} }}"


def P_additive(op, a, b):
    sym = {"add": "+", "sub": "-", "rem": "%"}
    if op in sym:
        body = f"d(&(a {sym[op]} b))"
    else:
        body = f"let mut x = a; x {sym[op[:-2]]}= b; d(&x)"
    return Program(f"(additive {op} {a.sexp()} {b.sexp()})", [("a", a.rust()), ("b", b.rust())], body, f"a {op} b")


def P_compare(form, a, b):
    body = {"eq": "let _r: bool = a == b; String::new()", "lt": "let _r: bool = a < b; String::new()",
            "pcmp": "let _r = a.partial_cmp(&b); String::new()"}[form]
    return Program(f"(compare {a.sexp()} {b.sexp()})", [("a", a.rust()), ("b", b.rust())], body, f"a {form} b")


def P_mul(a, b):
    return Program(f"(mul {a.sexp()} {b.sexp()})", [("a", a.rust()), ("b", b.rust())], "d(&(a * b))", "a * b")


def P_div(a, b):
    return Program(f"(div {a.sexp()} {b.sexp()})", [("a", a.rust()), ("b", b.rust())], "d(&(a / b))", "a / b")


def P_unary(kind, a, e=None):
    body = {"recip": "d(&a.recip())", "sqrt": "d(&a.sqrt())", "cbrt": "d(&a.cbrt())", "neg": "d(&(-a))",
            "scalar_right": "d(&(a * 2.0 / 4.0))", "scalar_left_mul": "d(&(2.0 * a))", "scalar_left_div": "d(&(2.0 / a))",
            "unchanged": "d(&a.abs().signum())"}.get(kind)
    if kind == "powi":
        body = f"d(&a.powi(uom::typenum::{TN[e]}::new()))"
        return Program(f"(powi {a.sexp()} {e})", [("a", a.rust())], body, f"a.powi({e})")
    return Program(f"({kind} {a.sexp()})", [("a", a.rust())], body, kind)


def P_muladd(x, a, b):
    return Program(f"(muladd {x.sexp()} {a.sexp()} {b.sexp()})", [("x", x.rust()), ("a", a.rust()), ("b", b.rust())], "d(&x.mul_add(a, b))", "x.mul_add(a, b)")


def P_hypot(a, b):
    return Program(f"(hypot {a.sexp()} {b.sexp()})", [("a", a.rust()), ("b", b.rust())], "d(&a.hypot(b))", "a.hypot(b)")


def P_atan2(a, b):
    return Program(f"(atan2 {a.sexp()} {b.sexp()})", [("a", a.rust()), ("b", b.rust())], "d(&a.atan2(b))", "a.atan2(b)")


def P_from(a, b, form="from"):
    body = f"let y: {b.rust()} = {'From::from(a)' if form == 'from' else 'a.into()'}; d(&y)"
    return Program(f"(from {a.sexp()} {b.sexp()})", [("a", a.rust())], body, f"B::{form}(a)")


UNIT_FORMS = ("new", "get", "floor", "ceil", "round", "trunc", "fract", "format_args", "into_format_args")


def P_unit(q, um, unit, form="new"):
    """Every method that takes a unit N of the quantity: new/get, the five roundings, and the two formatting entry points."""
    n = f"uom::si::{um}::{unit}"
    if form == "new":
        body = f"d(&<{q.rust()}>::new::<{n}>(1.0))"
    elif form == "get":
        body = f"let _v: f64 = a.get::<{n}>(); String::new()"
    elif form in ("floor", "ceil", "round", "trunc", "fract"):
        body = f"d(&a.{form}::<{n}>())"
    elif form == "format_args":
        body = f"let f = <{q.rust()}>::format_args({n}, uom::fmt::DisplayStyle::Abbreviation); let _s = format!(\"{{}}\", f.with(a)); String::new()"
    else:
        body = f"let _s = format!(\"{{}}\", a.into_format_args({n}, uom::fmt::DisplayStyle::Description)); String::new()"
    return Program(f"(unit {q.module} {um})", [("a", q.rust())], body, f"{form}::<{um}::{unit}>")


def P_let(alias, e_prog):
    """let x: Alias = <expression of program e_prog>;  e_prog's body must be of the form d(&(EXPR))"""
    m = re.match(r"d\(&\((.*)\)\)$", e_prog.body)
    expr = m.group(1)
    return expr


def P_let_mul(alias, a, b):
    r = QT([x + y for x, y in zip(a.dims, b.dims)], "Kind", a.base)
    return Program(f"(let {alias.sexp()} {r.sexp()})", [("a", a.rust()), ("b", b.rust())], f"let x: {alias.rust()} = a * b; d(&x)", "let x: Alias = a * b"), r


# ----------------------------------------------------------------------------- rustc side

def write_crate(dirpath, name, features, sources, default_features=False, bins=None):
    feats = ", ".join(f'"{f}"' for f in features)
    cargo = f'''[package]
name = "{name}"
version = "0.0.0"
edition = "2021"
autobins = false

[workspace]

[dependencies]
uom = {{ path = "{C.REPO}", default-features = false, features = [{feats}] }}

[profile.dev]
debug = 0
incremental = false
'''
    for b in (bins or []):
        cargo += f'\n[[bin]]\nname = "{b}"\npath = "src/bin/{b}.rs"\n'
    if not bins:
        cargo += '\n[lib]\npath = "src/lib.rs"\n'
    C.write_if_changed(os.path.join(dirpath, "Cargo.toml"), cargo)
    C.write_if_changed(os.path.join(dirpath, ".cargo", "config.toml"), "[net]\noffline = true\n")
    lock_src, lock_dst = os.path.join(C.REPO, "Cargo.lock"), os.path.join(dirpath, "Cargo.lock")
    if not os.path.exists(lock_dst) and os.path.exists(lock_src):
        C.write_if_changed(lock_dst, open(lock_src).read())
    for rel, text in sources.items():
        C.write_if_changed(os.path.join(dirpath, rel), text)


def classify(name, features, programs, shards=None, timeout=3000):
    """rustc's verdict per program: returns dict index -> (compiles: bool|None, [error codes]).
    The programs are spread over member lib crates of ONE workspace checked by one
    `cargo check --keep-going --message-format=json`; every member ends with a sentinel function
    carrying a known type error (if that error is not reported the member is inconclusive and is split)."""
    shards = shards or C.NCPU
    root = os.path.join(C.BUILD, "progs", name)
    idx = list(range(len(programs)))
    groups = [idx[i::shards] for i in range(shards) if idx[i::shards]]
    verdict = {}
    pending = [(f"s{i}", g) for i, g in enumerate(groups)]
    rounds = 0
    feats = ", ".join(f'"{f}"' for f in features)
    while pending and rounds < 5:
        rounds += 1
        info = {}
        members = []
        for sname, g in pending:
            src = PRELUDE
            ln = len(PRELUDE.rstrip("\n").split("\n"))
            fn_line = {}
            for i in g:
                ln += 1
                fn_line[ln] = i
                src += programs[i].rust_fn(f"p{i}") + "\n"
            ln += 1
            sentinel_line = ln
            src += 'pub fn sentinel() -> u8 { let x: u8 = "sentinel"; x }\n'
            crate = f"progs_{name}_{sname}_r{rounds}"
            d = os.path.join(root, f"r{rounds}", sname)
            C.write_if_changed(os.path.join(d, "Cargo.toml"), f"""[package]
name = "{crate}"
version = "0.0.0"
edition = "2021"

[lib]
path = "src/lib.rs"

[dependencies]
uom = {{ path = "{C.REPO}", default-features = false, features = [{feats}] }}
""")
            C.write_if_changed(os.path.join(d, "src", "lib.rs"), src)
            members.append(sname)
            info[crate] = (sname, g, fn_line, sentinel_line)
        wroot = os.path.join(root, f"r{rounds}")
        C.write_if_changed(os.path.join(wroot, "Cargo.toml"), "[workspace]\nresolver = \"2\"\nmembers = [" + ", ".join(f'"{m}"' for m in members) +
                           "]\n\n[profile.dev]\ndebug = 0\nincremental = false\n")
        C.write_if_changed(os.path.join(wroot, ".cargo", "config.toml"), "[net]\noffline = true\n")
        lock_src, lock_dst = os.path.join(C.REPO, "Cargo.lock"), os.path.join(wroot, "Cargo.lock")
        if os.path.exists(lock_src):
            C.write_if_changed(lock_dst, open(lock_src).read())
        outfile = os.path.join(wroot, "check.json")
        with open(outfile, "w") as f:
            try:
                subprocess.run(["cargo", "check", "--offline", "--workspace", "--keep-going", "--message-format=json", "-j", str(C.NCPU)],
                               cwd=wroot, env=C.CARGO_ENV, stdout=f, stderr=subprocess.DEVNULL, timeout=timeout)
            except subprocess.TimeoutExpired:
                pass
        errs = {c: {} for c in info}
        sentinel = {c: False for c in info}
        other = {c: [] for c in info}
        for line in open(outfile, encoding="utf-8", errors="replace"):
            if not line.startswith("{"):
                continue
            try:
                m = json.loads(line)
            except ValueError:
                continue
            if m.get("reason") != "compiler-message":
                continue
            crate = (m.get("target") or {}).get("name")
            if crate not in info:
                continue
            msg = m["message"]
            if msg.get("level") != "error":
                continue
            code = (msg.get("code") or {}).get("code")
            _, g, fn_line, sentinel_line = info[crate]
            hit = False
            for sp in msg.get("spans", []):
                if not sp.get("is_primary"):
                    continue
                l0 = sp["line_start"]
                if l0 == sentinel_line:
                    sentinel[crate] = True
                    hit = True
                elif l0 in fn_line:
                    errs[crate].setdefault(fn_line[l0], []).append(code)
                    hit = True
            if not hit and code:
                other[crate].append(code)
        nxt = []
        for crate, (sname, g, fn_line, sentinel_line) in info.items():
            if not sentinel[crate]:
                if len(g) > 1:
                    h = len(g) // 2
                    nxt += [(sname + "a", g[:h]), (sname + "b", g[h:])]
                else:
                    verdict[g[0]] = (None, ["inconclusive"] + other[crate])
                continue
            for i in g:
                verdict[i] = (i not in errs[crate], errs[crate].get(i, []))
        pending = nxt
    for sname, g in pending:
        for i in g:
            verdict[i] = (None, ["inconclusive"])
    return verdict


def model_verdicts(t, programs, ac=True, std=True):
    head = header_sexp(t, ac, std)
    lines = [f"m{i} ty - {head} {p.sexp})" for i, p in enumerate(programs)]
    res = coqbuild.run_model(lines)
    out = {}
    kinds = list(t.kinds.keys())
    for i in range(len(programs)):
        r = res.get(f"m{i}", "").split()
        if not r or r[0].startswith("ERROR"):
            out[i] = ("error", res.get(f"m{i}"))
        elif r[0] == "0":
            out[i] = (False, None)
        else:
            base, kidx, dims = int(r[1]), int(r[2]), [int(x) for x in r[3:]]
            out[i] = (True, (dims, kinds[kidx] if 0 <= kidx < len(kinds) else "", base))
    return out


def run_accepted(name, features, programs, accepted):
    """Build and run the accepted programs; returns dict index -> description string printed by d()."""
    root = os.path.join(C.BUILD, "progs", name + "_run")
    fns, calls = [], []
    for i in accepted:
        p = programs[i]
        fns.append(p.rust_fn(f"p{i}"))
        args = ", ".join("mk()" for _ in p.params)
        calls.append(f'    println!("{i} {{}}", p{i}({args}));')
    src = PRELUDE + """
fn mk<D: uom::si::Dimension + ?Sized, U: uom::si::Units<f64> + ?Sized>() -> uom::si::Quantity<D, U, f64> {
    uom::si::Quantity { dimension: std::marker::PhantomData, units: std::marker::PhantomData, value: 1.5 }
}
""" + "\n".join(fns) + "\nfn main() {\n" + "\n".join(calls) + "\n}\n"
    binname = f"progs_{name}_run"
    write_crate(root, f"progs_{name}_run", features, {f"src/bin/{binname}.rs": src}, bins=[binname])
    rc, out = C.sh(["cargo", "build", "--offline", "-j", str(C.NCPU), "--bins"], cwd=root, env=C.CARGO_ENV, timeout=2400)
    if rc != 0:
        return None, out
    rc, out = C.sh([os.path.join(C.TARGET, "debug", binname)], timeout=600)
    res = {}
    for line in out.splitlines():
        sp = line.split(" ", 1)
        if len(sp) == 2 and sp[0].isdigit():
            res[int(sp[0])] = sp[1]
    return res, out


def parse_desc(desc):
    """d() output -> (dims, kind name, base id)"""
    dims_s, kind_s, units_s = desc.split("|")
    dims = [int(x) for x in dims_s.split()]
    kind = kind_s.replace("dyn ", "").split("::")[-1].split(" ")[0]
    base = 1 if "kilometer" in units_s else 0
    return dims, kind, base


def saturating_probes():
    """Integer-storage programs outside the f64 family: num_traits::Saturating between quantities.  Returns (programs, expected verdicts):
    two temperature POINTS must not combine (that would apply the offset twice); lengths and temperature intervals do."""
    def q(mod, alias):
        return f"uom::si::{mod}::{alias}<uom::si::SI<i32>, i32>"
    def prog(ty, unit, meth, note):
        body = (f"use uom::num::Saturating; let a = <{ty}>::new::<{unit}>(300); let b = <{ty}>::new::<{unit}>(5); "
                f"let c: {ty} = a.{meth}(b); let _v: i32 = c.value; String::new()")
        return Program("(unchanged (() Kind 0))", [], body, note)
    tt, ti, ln = q("thermodynamic_temperature", "ThermodynamicTemperature"), q("temperature_interval", "TemperatureInterval"), q("length", "Length")
    progs, want = [], []
    for meth in ("saturating_add", "saturating_sub"):
        progs.append(prog(tt, "uom::si::thermodynamic_temperature::kelvin", meth, f"point.{meth}(point)")); want.append(False)
        progs.append(prog(ti, "uom::si::temperature_interval::kelvin", meth, f"interval.{meth}(interval)")); want.append(True)
        progs.append(prog(ln, "uom::si::length::meter", meth, f"length.{meth}(length)")); want.append(True)
    return progs, want


def check_saturating(ctx, name, spec):
    progs, want = saturating_probes()
    rv = classify(name, ["autoconvert", "f64", "i32", "si", "std"], progs)
    n = 0
    for i, w in enumerate(want):
        got = rv.get(i, (None, []))[0]
        if got is None:
            continue
        n += 1
        if got != w:
            ctx.violation({"kind": "program", "spec": spec, "program": progs[i].rust_fn(f"p{i}"), "note": progs[i].note,
                           "features": ["autoconvert", "f64", "i32", "si", "std"], "detail": f"rustc {'accepts' if got else 'rejects'} it; it must {'compile' if w else 'not compile'}",
                           "how_to_replay": "put PRELUDE (vlib/progs.py) and this function into a crate depending on uom (path /repo) with the listed features; cargo check"})
    return n
