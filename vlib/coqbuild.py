"""Build the Coq development, audit theorems (Print Assumptions vs allowlist, forbidden-token grep),
build the extracted runner, and run model cases."""
import os
import re
import subprocess
import threading

from . import common as C

ALLOWED_AXIOMS = {
    # all declared by the Coq standard library (classical real numbers used by Reals / Flocq)
    "ClassicalDedekindReals.sig_forall_dec",
    "ClassicalDedekindReals.sig_not_dec",
    "Classical_Prop.classic",
    "FunctionalExtensionality.functional_extensionality_dep",
}

FORBIDDEN = re.compile(r"\b(Admitted|admit|Axiom|Axioms|Parameter|Parameters|Conjecture|Conjectures|Admit Obligations|"
                       r"Unset Guard Checking|Unset Positivity Checking|Unset Universe Checking|bypass_check|"
                       r"type-in-type|impredicative-set)\b")

COQ_TIMEOUT = int(os.environ.get("VERIF_COQ_TIMEOUT", "2400"))


def strip_comments(src):
    out = []
    depth = 0
    i = 0
    n = len(src)
    in_str = False
    while i < n:
        if depth == 0 and src[i] == '"':
            in_str = not in_str
            out.append(src[i]); i += 1; continue
        if not in_str and src.startswith("(*", i):
            depth += 1; i += 2; continue
        if not in_str and depth > 0 and src.startswith("*)", i):
            depth -= 1; i += 2; continue
        if depth == 0:
            out.append(src[i])
        elif src[i] == "\n":
            out.append("\n")
        i += 1
    return "".join(out)


def project_files():
    files = []
    with open(os.path.join(C.COQ, "_CoqProject")) as f:
        for line in f:
            line = line.strip()
            if line.endswith(".v"):
                files.append(line)
    return files


def grep_forbidden():
    """Return list of (file, line, token) for forbidden constructs in hand-written sources."""
    hits = []
    for rel in project_files():
        path = os.path.join(C.COQ, rel)
        if not os.path.exists(path):
            continue
        src = strip_comments(open(path, encoding="utf-8").read())
        for ln, line in enumerate(src.splitlines(), 1):
            # `Variable`/`Hypothesis` outside a section are checked by Print Assumptions (they show up as axioms)
            m = FORBIDDEN.search(line)
            if m:
                hits.append((rel, ln, m.group(1)))
    return hits


def ensure_makefile():
    mk = os.path.join(C.COQ, "Makefile")
    cp = os.path.join(C.COQ, "_CoqProject")
    if not os.path.exists(mk) or os.path.getmtime(mk) < os.path.getmtime(cp):
        C.sh(["coq_makefile", "-f", "_CoqProject", "-o", "Makefile"], cwd=C.COQ, check=True)


def make(targets=None, timeout=None):
    """make -j the given .vo targets (paths relative to coq/), or everything."""
    ensure_makefile()
    cmd = ["make", "-j", str(C.NCPU)]
    if targets:
        cmd += targets
    rc, out = C.sh(cmd, cwd=C.COQ, timeout=timeout or COQ_TIMEOUT)
    return rc == 0, out


def theorems_in(relpath):
    """Names of `Theorem` statements of a Props file, in order."""
    src = strip_comments(open(os.path.join(C.COQ, relpath), encoding="utf-8").read())
    return re.findall(r"^\s*Theorem\s+([A-Za-z_][A-Za-z_0-9']*)", src, re.M)


def lemma_count(relpaths):
    n = 0
    for rel in relpaths:
        p = os.path.join(C.COQ, rel)
        if os.path.exists(p):
            src = strip_comments(open(p, encoding="utf-8").read())
            n += len(re.findall(r"^\s*(Lemma|Theorem|Corollary|Example|Fact|Remark|Proposition)\s", src, re.M))
    return n


def coqchk(module, timeout=3000):
    """Re-check the compiled property module and everything it depends on with Coq's independent checker.
    Returns (ok, axioms, text).  ok = the checker accepted every library and reports no type-in-type, unsafe fixpoint or
    assumed positivity."""
    rc, out = C.sh(["coqchk", "-o", "-silent", "-Q", os.path.join(C.COQ, "theories"), "UomV", "UomV." + module], cwd=C.COQ, timeout=timeout)
    axioms, sect = [], None
    clean = {"type-in-type": False, "unsafe": False, "positivity": False}
    for line in out.splitlines():
        st = line.strip()
        if st.startswith("* Axioms:"):
            sect = "ax"
            if st.endswith("<none>"):
                sect = None
            continue
        if st.startswith("* Constants/Inductives relying on type-in-type:"):
            clean["type-in-type"] = st.endswith("<none>"); sect = None; continue
        if st.startswith("* Constants/Inductives relying on unsafe"):
            clean["unsafe"] = st.endswith("<none>"); sect = None; continue
        if st.startswith("* Inductives whose positivity is assumed:"):
            clean["positivity"] = st.endswith("<none>"); sect = None; continue
        if st.startswith("*"):
            sect = None
            continue
        if sect == "ax" and st:
            axioms.append(st)
    return rc == 0 and all(clean.values()), axioms, out[-1500:]


def audit(module, theorems, workdir=None):
    """Print Assumptions for each theorem of UomV.<module>.  Returns dict name -> (ok, axioms|error)."""
    workdir = C.ensure_dir(workdir or os.path.join(C.BUILD, "audit"))
    fname = "Audit_" + module.replace(".", "_") + ".v"
    lines = [f"From UomV Require Import {module}."]
    for t in theorems:
        lines.append(f'Goal True. idtac "@@BEGIN {t}". exact I. Qed.')
        lines.append(f"Print Assumptions {t}.")
    lines.append('Goal True. idtac "@@END". exact I. Qed.')
    with open(os.path.join(workdir, fname), "w") as f:
        f.write("\n".join(lines) + "\n")
    rc, out = C.sh(["coqc", "-noglob", "-Q", os.path.join(C.COQ, "theories"), "UomV", fname], cwd=workdir, timeout=900)
    res = {}
    if rc != 0:
        for t in theorems:
            res[t] = (False, "audit coqc failed: " + out[-400:])
        return res
    cur = None
    buf = {}
    for line in out.splitlines():
        if line.startswith("@@BEGIN "):
            cur = line[8:].strip()
            buf[cur] = []
        elif line.startswith("@@END"):
            cur = None
        elif cur is not None:
            buf[cur].append(line)
    for t in theorems:
        body = buf.get(t)
        if body is None:
            res[t] = (False, "no output")
            continue
        text = "\n".join(body)
        if "Closed under the global context" in text:
            res[t] = (True, [])
            continue
        axioms = [ln.split()[0].rstrip(":") for ln in body
                  if ln and not ln[0].isspace() and not ln.startswith("Axioms") and not ln.startswith("@@")]
        bad = [a for a in axioms if a not in ALLOWED_AXIOMS]
        res[t] = (not bad and bool(axioms), axioms if not bad else bad)
    return res


# ----------------------------------------------------------------------------- runner

RUNNER_DIR = os.path.join(C.BUILD, "runner")
RUNNER = os.path.join(RUNNER_DIR, "runner")


def runner_inputs_hash():
    parts = []
    for rel in project_files():
        if rel.startswith("theories/Model/") or rel in ("theories/Proofs/AccRun.v", "theories/Proofs/SafeB.v", "theories/Proofs/ErrBound.v", "theories/Proofs/Tree.v"):
            parts.append(open(os.path.join(C.COQ, rel), encoding="utf-8").read())
    parts.append(open(os.path.join(C.COQ, "theories", "Extract", "Extract.v"), encoding="utf-8").read())
    parts.append(open(os.path.join(C.VERIF, "runner", "driver.ml"), encoding="utf-8").read())
    return C.sha("\n".join(parts))


def build_runner(force=False):
    """Extract the model and compile the OCaml runner (cached on the hash of its inputs)."""
    C.ensure_dir(RUNNER_DIR)
    h = runner_inputs_hash()
    stamp = os.path.join(RUNNER_DIR, "stamp")
    if not force and os.path.exists(RUNNER) and os.path.exists(stamp) and open(stamp).read() == h:
        return True, "cached"
    ok, out = make(["theories/Model/Run.vo", "theories/Model/Fixed.vo", "theories/Model/DurationW.vo", "theories/Proofs/AccRun.vo"])
    if not ok:
        return False, out
    rc, out = C.sh(["coqc", "-noglob", "-Q", os.path.join(C.COQ, "theories"), "UomV",
                    os.path.join(C.COQ, "theories", "Extract", "Extract.v"), "-o", os.path.join(RUNNER_DIR, "Extract.vo")],
                   cwd=RUNNER_DIR, timeout=900)
    if rc != 0:
        return False, out
    import shutil
    shutil.copy(os.path.join(C.VERIF, "runner", "driver.ml"), os.path.join(RUNNER_DIR, "driver.ml"))
    rc, out2 = C.sh(["ocamlfind", "ocamlopt", "-O3", "-w", "-a", "-package", "zarith", "-linkpkg",
                     "model.mli", "model.ml", "driver.ml", "-o", "runner"], cwd=RUNNER_DIR, timeout=900)
    if rc != 0:
        return False, out + out2
    with open(stamp, "w") as f:
        f.write(h)
    return True, out + out2


def run_model(lines, timeout=1800, shards=None):
    """lines: list of 'id op args...'.  Returns dict id -> result string."""
    shards = shards or C.NCPU
    if not lines:
        return {}
    shards = min(shards, len(lines))
    chunks = [lines[i::shards] for i in range(shards)]
    outs = [None] * shards

    def work(i):
        p = subprocess.Popen([RUNNER], stdin=subprocess.PIPE, stdout=subprocess.PIPE, stderr=subprocess.DEVNULL, text=True)
        try:
            outs[i] = p.communicate("\n".join(chunks[i]) + "\n", timeout=timeout)[0]
        except subprocess.TimeoutExpired:
            p.kill()
            outs[i] = ""

    ths = [threading.Thread(target=work, args=(i,)) for i in range(shards)]
    for t in ths:
        t.start()
    for t in ths:
        t.join()
    res = {}
    for o in outs:
        for line in (o or "").splitlines():
            sp = line.split(" ", 1)
            if len(sp) == 2:
                res[sp[0]] = sp[1]
    return res


def vm_crosscheck(lines, expected, workdir=None):
    """Re-evaluate a sample of runner cases inside Coq with vm_compute (cross-checks extraction).
    lines: list of (id, coq_term_string) ; expected: dict id -> string.  Returns list of mismatching ids."""
    workdir = C.ensure_dir(workdir or os.path.join(C.BUILD, "vmcheck"))
    src = ["From Coq Require Import ZArith QArith List String.",
           "From UomV Require Import Model.Tables Model.Conv Model.FloatM Model.FloatOps Model.Exact Model.Quantity Model.Storages Model.Run.",
           "Import ListNotations. Open Scope Z_scope."]
    for cid, term in lines:
        src.append(f'Goal True. idtac "@@ {cid}". exact I. Qed.')
        src.append(f"Eval vm_compute in ({term}).")
    with open(os.path.join(workdir, "cases.v"), "w") as f:
        f.write("\n".join(src) + "\n")
    rc, out = C.sh(["coqc", "-noglob", "-Q", os.path.join(C.COQ, "theories"), "UomV", "cases.v"], cwd=workdir, timeout=1200)
    if rc != 0:
        return None, out
    got = {}
    cur = None
    acc = []
    for line in out.splitlines():
        if line.startswith("@@ "):
            if cur is not None:
                got[cur] = " ".join(acc)
            cur = line[3:].strip()
            acc = []
        else:
            acc.append(line.strip())
    if cur is not None:
        got[cur] = " ".join(acc)
    bad = []
    for cid, _ in lines:
        text = got.get(cid, "")
        m = re.search(r"=\s*(.*?)\s*:\s*[A-Za-z]", text)
        val = m.group(1).strip() if m else None
        if val is None:
            bad.append((cid, text, expected.get(cid)))
            continue
        val = val.replace("%Z", "").replace("(", "").replace(")", "").replace("[", "").replace("]", "").replace(";", " ").strip()
        if val != str(expected.get(cid)):
            bad.append((cid, val, expected.get(cid)))
    return bad, out


# ----------------------------------------------------------------------------- generic kernel-VM cross-check of runner results

_BINOP = {"add": "BAdd", "sub": "BSub", "mul": "BMul", "div": "BDiv", "rem": "BRem", "max": "BMax", "min": "BMin"}
_CMPOP = {"eq": "CEq", "ne": "CNe", "lt": "CLt", "le": "CLe", "gt": "CGt", "ge": "CGe"}
_UNOP = {"neg": "UNeg", "abs": "UAbs", "signum": "USignum", "recip": "URecip", "sqrt": "USqrt"}
_RND = {"floor": "RFloor", "ceil": "RCeil", "round": "RRound", "trunc": "RTrunc", "fract": "RFract"}


def _tok(s):
    return re.findall(r"\(|\)|[^\s()]+", s)


def _parse(toks, i=0):
    if toks[i] == "(":
        out = []
        i += 1
        while toks[i] != ")":
            e, i = _parse(toks, i)
            out.append(e)
        return out, i + 1
    return toks[i], i + 1


def _z(a):
    n = int(a)
    return f"({n})" if n < 0 else str(n)


def _cexpr(e):
    k = e[0]
    if k == "L":
        return f"(ELit {_z(e[1])} {_z(e[2])})"
    if k == "M":
        return f"(EMul {_cexpr(e[1])} {_cexpr(e[2])})"
    if k == "D":
        return f"(EDiv {_cexpr(e[1])} {_cexpr(e[2])})"
    if k == "N":
        return f"(ENeg {_cexpr(e[1])})"
    raise ValueError(e)


def _cexprs(es):
    return "[" + "; ".join(_cexpr(e) for e in es) + "]"


def _zs(zs):
    return "[" + "; ".join(_z(z) for z in zs) + "]"


def _const(c):
    return "None" if c == "-" else f"(Some {_cexpr(c)})"


def _b(x):
    return "true" if x in ("1", "true") else "false"


def coq_request(cls, r):
    """sexp request (parsed) -> Gallina term of type req Z / req Q; None if the form is not supported here."""
    val = (lambda v: _z(v)) if cls != "q" else (lambda v: f"(Qmake {_z(v[0])} {int(v[1])})")
    k = r[0]
    if cls == "w":
        rt = lambda v: f"({_z(v[0])}, {_z(v[1])})"
        rts = lambda l: "[" + "; ".join(rt(v) for v in l) + "]"
        if k in ("new", "get"):
            return f"({'WNew' if k == 'new' else 'WGet'} {_z(r[1])} {_z(r[2])} {_b(r[3])} {rts(r[4])} {_zs(r[5])} {rt(r[6])} {rt(r[7])} {rt(r[8])})"
        if k == "rebase":
            return f"(WRebase {_z(r[1])} {_z(r[2])} {_b(r[3])} {rts(r[4])} {rts(r[5])} {_zs(r[6])} {rt(r[7])})"
        if k == "prim":
            return f"(WPrim {_z(r[1])} {_z(r[2])} {_z(r[3])} {rt(r[4])} {rt(r[5])})"
        return None
    if cls == "dw":
        rt = lambda v: f"({_z(v[0])}, {_z(v[1])})"
        rts = lambda l: "[" + "; ".join(rt(v) for v in l) + "]"
        if k == "to":
            return f"(DWTo {_z(r[1])} {_z(r[2])} {rts(r[3])} {_zs(r[4])} {rt(r[5])} {rt(r[6])} {_z(r[7])})"
        if k == "from":
            return f"(DWFrom {_z(r[1])} {_z(r[2])} {rts(r[3])} {_zs(r[4])} {rt(r[5])} {rt(r[6])} {_z(r[7])} {_z(r[8])})"
        return None
    if k in ("new", "get"):
        return f"({'RNew' if k == 'new' else 'RGet'} {_cexprs(r[1])} {_zs(r[2])} {_cexpr(r[3])} {_const(r[4])} {val(r[5])})"
    if k == "rebase":
        return f"(RRebase {_b(r[1])} {_cexprs(r[2])} {_cexprs(r[3])} {_zs(r[4])} {val(r[5])})"
    if k == "bin":
        return f"(RBin {_b(r[1])} {_BINOP[r[2]]} {_cexprs(r[3])} {_cexprs(r[4])} {_zs(r[5])} {val(r[6])} {val(r[7])})"
    if k == "cmp":
        return f"(RCmp {_b(r[1])} {_CMPOP[r[2]]} {_cexprs(r[3])} {_cexprs(r[4])} {_zs(r[5])} {val(r[6])} {val(r[7])})"
    if k == "pcmp":
        return f"(RPcmp {_b(r[1])} {_cexprs(r[2])} {_cexprs(r[3])} {_zs(r[4])} {val(r[5])} {val(r[6])})"
    if k == "muladd":
        return f"(RMulAdd {_b(r[1])} {_cexprs(r[2])} {_cexprs(r[3])} {_cexprs(r[4])} {_zs(r[5])} {_zs(r[6])} {val(r[7])} {val(r[8])} {val(r[9])})"
    if k == "round":
        return f"(RRoundTo {_RND[r[1]]} {_cexprs(r[2])} {_zs(r[3])} {_cexpr(r[4])} {_const(r[5])} {val(r[6])})"
    if k == "coef":
        return f"(RCoef {_cexpr(r[1])})"
    if k == "hist":
        ops = []
        for h in r[5]:
            if h[0] == "bin":
                ops.append(f"HRBin {_BINOP[h[1]]} {_cexprs(h[2])} {val(h[3])}")
            elif h[0] == "same":
                ops.append(f"HRSame {_BINOP[h[1]]} {val(h[2])}")
            else:
                ops.append(f"HRUn {_UNOP[h[1]]}")
        return f"(RHist {_b(r[1])} {_cexprs(r[2])} {_zs(r[3])} {val(r[4])} [{'; '.join(ops)}])"
    if k == "todur":
        return f"(RToDur {_b(r[1])} {_cexprs(r[2])} {_zs(r[3])} {_cexpr(r[4])} {_cexpr(r[5])} {val(r[6])})"
    if k == "fromdur":
        return f"(RFromDur {_b(r[1])} {_cexprs(r[2])} {_zs(r[3])} {_cexpr(r[4])} {_cexpr(r[5])} {_z(r[6])} {_z(r[7])})"
    return None


def vm_sample_check(lines, results, rng, n=40, workdir=None):
    """Re-evaluate a seed-drawn sample of runner request lines with `Eval vm_compute` in coqc and compare with the
    extracted runner's answers.  Returns (checked, [mismatching ids], error text or None)."""
    cand = []
    for l in lines:
        sp = l.split(" ", 3)
        if len(sp) == 4 and sp[1] in ("f64", "f32", "q", "z", "w", "dw") and sp[0] in results:
            cand.append(sp)
    if not cand:
        return 0, [], None
    sample = rng.sample(cand, min(n, len(cand)))
    workdir = C.ensure_dir(workdir or os.path.join(C.BUILD, "vmcheck"))
    src = ["From Coq Require Import ZArith QArith List String.",
           "From UomV Require Import Model.Tables Model.Conv Model.FloatM Model.FloatOps Model.Exact Model.Quantity Model.Storages Model.Duration Model.Fixed Model.DurationW Model.Run.",
           "Import ListNotations. Open Scope Z_scope."]
    used = []
    for cid, cls, lib, req in sample:
        try:
            parsed, _ = _parse(_tok(req))
            term = coq_request(cls, parsed)
        except (ValueError, KeyError, IndexError):
            term = None
        if term is None:
            continue
        fn = {"f64": f"run64 {'LibStd' if lib == 'std' else 'LibCore'}", "f32": f"run32 {'LibStd' if lib == 'std' else 'LibCore'}", "q": "q_run", "z": "z_run", "w": "w_run", "dw": "dw_run"}[cls]
        src.append(f'Goal True. idtac "@@ {cid}". exact I. Qed.')
        if cls == "q":
            src.append(f"Eval vm_compute in (map (fun q => (Qnum q, Zpos (Qden q))) ({fn} {term})).")
        else:
            src.append(f"Eval vm_compute in ({fn} {term}).")
        used.append((cid, cls))
    with open(os.path.join(workdir, "sample.v"), "w") as f:
        f.write("\n".join(src) + "\n")
    rc, out = C.sh(["coqc", "-noglob", "-Q", os.path.join(C.COQ, "theories"), "UomV", "sample.v"], cwd=workdir, timeout=1200)
    if rc != 0:
        return 0, [], out[-1500:]
    got = {}
    for ch in out.split("@@ ")[1:]:
        cid, _, body = ch.partition("\n")
        m = re.search(r"=\s*\[(.*?)\]\s*:", body.replace("\n", " "), re.S)
        got[cid.strip()] = m.group(1) if m else None
    bad = []
    for cid, cls in used:
        g = got.get(cid)
        want = results[cid].strip()
        if g is None:
            bad.append(cid)
            continue
        if cls == "q":
            pairs = re.findall(r"\(\s*\(?(-?\d+)\)?%?Z?\s*,\s*(\d+)%?Z?\s*\)", g.replace("%Z", ""))
            gs = " ".join(f"{n}/{d}" for n, d in pairs)
        else:
            gs = " ".join(x.strip().replace("%Z", "").replace("(", "").replace(")", "") for x in g.split(";") if x.strip())
        if gs != want:
            bad.append(cid)
    return len(used), bad, None
